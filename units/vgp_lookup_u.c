/* Verification unit: hdf/src/vgp.c (default) or hdf/src/vio.c (-DLK_VIO) -- C08, "lookups by reference and iteration visit
 * precisely the existing objects": Vgetid / VSgetid (iteration over the per-file tables), Vgetnext, Visvg, Visvs (iteration and
 * membership tests inside one vgroup), Vgetname/Vgetclass/Vgetnamelen/Vgetclassnamelen/Vinquire (read-out of name, class, count).
 *
 * Environment (trusted stubs, stated as assumptions in obligations/c08_lookup.py):
 *  A-TBBT-WIN  tbbt.c is outside the unit.  The per-file table (vgtree resp. vstree) is an ordered map of ANY size, of which the
 *              call under proof can see a window: the first node, the last node, the node whose key is the id passed in (if
 *              there is one) and its in-order successor (if there is one).  tbbtdfind returns the node with the key iff the key
 *              is in the map, tbbtfirst / tbbtlast / tbbtnext return the ordered neighbours, keys are strictly ascending in
 *              tree order and node->key == node->ref (how Load_vfile / Vattach / VSattach insert).  The file table (vtree) maps
 *              the one file id LK_FID to the harness-built vfile_t (or to nothing).
 *  A-ATOM1     HAatom_group / HAatom_object: one-entry finite map chosen by the harness (as in vgp_u.c).
 */
#include "h4v.h"
#include "h4v_err.h"
#include "vg_priv.h"

H4V_DECL_ND(int);
H4V_DECL_ND(int32);
H4V_DECL_ND(uint16);
H4V_DECL_ND(unsigned);
H4V_DECL_ND(size_t);

/* ghosts named by loops/vgp.loops (every loop table of vgp.c is injected into the one scratch copy) */
unsigned g_k, g_j;
uint16   g_kt, g_kr, g_k1t, g_k1r, g_j1t, g_j1r;
int32    g_ta0, g_ra0, g_n0;

/* ------------------------------------------------------------------ the table window (A-TBBT-WIN) */
#ifdef LK_VIO
typedef vsinstance_t lk_inst_t;
#define LK_TREE(vf) ((vf)->vstree)
#else
typedef vginstance_t lk_inst_t;
#define LK_TREE(vf) ((vf)->vgtree)
#endif
#define LK_FID 0x10000007

vfile_t  *g_vf;         /* the V record of file LK_FID; NULL: the file is not V-initialised */
TBBT_NODE g_fnode;      /* its node in vtree */
TBBT_TREE g_vtree_obj;  /* vtree itself */
TBBT_TREE g_tree;       /* the table (vgtree resp. vstree) */
int       g_tree_null;  /* the vfile_t has no table at all (never after Load_vfile; Vgetid tolerates it) */
/* the window: four node objects, in tree order  N_first <= N_cur < N_next <= N_last  */
TBBT_NODE g_nfirst, g_ncur, g_nnext, g_nlast;
lk_inst_t g_ifirst, g_icur, g_inext, g_ilast;
int       g_empty;         /* the table has no node */
int       g_found;         /* the id passed in is a key of the table: g_ncur is its node */
int       g_has_next;      /* g_ncur has a successor: g_nnext */
int       g_first_is_cur;  /* g_ncur is the first node */
int       g_last_is_next;  /* g_nnext is the last node */
int       g_single;        /* (not found) the table has exactly one node */
int       g_bad_tbbt;      /* a tbbt call outside the model */

#define LK_PFIRST (g_empty ? (TBBT_NODE *)NULL : ((g_found && g_first_is_cur) ? &g_ncur : &g_nfirst))
#define LK_PLAST                                                                                                 \
    (g_empty ? (TBBT_NODE *)NULL                                                                                 \
             : (g_found ? (!g_has_next ? &g_ncur : (g_last_is_next ? &g_nnext : &g_nlast)) : (g_single ? &g_nfirst : &g_nlast)))
#define LK_RFIRST ((g_found && g_first_is_cur) ? (int32)g_icur.ref : (int32)g_ifirst.ref)
/* consistency of the window with the id the caller passes */
#define LK_WF(id)                                                                                                \
    (vtree == &g_vtree_obj && g_bad_tbbt == 0 && (g_vf == NULL || (g_vf->f == LK_FID && LK_TREE(g_vf) == (g_tree_null ? (TBBT_TREE *)NULL : &g_tree))) && \
     (!g_tree_null || g_empty) && (!g_empty || !g_found) && (g_found || !g_has_next) && g_tree.root == LK_PFIRST &&           \
     g_ifirst.key == (int32)g_ifirst.ref && g_icur.key == (int32)g_icur.ref && g_inext.key == (int32)g_inext.ref &&              \
     g_ilast.key == (int32)g_ilast.ref && g_ifirst.ref <= 65535 && g_icur.ref <= 65535 && g_inext.ref <= 65535 &&                \
     g_ilast.ref <= 65535 && g_ifirst.ref < g_icur.ref && g_icur.ref < g_inext.ref && g_inext.ref < g_ilast.ref &&               \
     (!g_found || g_icur.key == (id)) && (g_found || (g_ifirst.key != (id) && g_ilast.key != (id))) &&                         \
     g_fnode.data == (void *)g_vf && g_nfirst.data == (void *)&g_ifirst && g_ncur.data == (void *)&g_icur &&                     \
     g_nnext.data == (void *)&g_inext && g_nlast.data == (void *)&g_ilast)

TBBT_NODE *
tbbtdfind(TBBT_TREE *tree, void *key, TBBT_NODE **pp)
{
    if (tree == NULL)
        return NULL; /* tbbt.c: an absent tree holds nothing */
    if (tree == &g_vtree_obj)
        return (*(int32 *)key == LK_FID && g_vf != NULL) ? &g_fnode : NULL;
    if (tree == &g_tree)
        return (g_found && *(int32 *)key == g_icur.key) ? &g_ncur : NULL;
    g_bad_tbbt++;
    return NULL;
}
TBBT_NODE *
tbbtfirst(TBBT_NODE *root)
{
    if (root != g_tree.root)
        g_bad_tbbt++;
    return LK_PFIRST;
}
TBBT_NODE *
tbbtlast(TBBT_NODE *root)
{
    if (root != g_tree.root)
        g_bad_tbbt++;
    return LK_PLAST;
}
TBBT_NODE *
tbbtnext(TBBT_NODE *node)
{
    if (g_found && node == &g_ncur)
        return g_has_next ? &g_nnext : NULL;
    g_bad_tbbt++; /* the window does not know the successor of any other node */
    return NULL;
}

#ifdef LK_VIO
/* vgp.c */
vfile_t *
Get_vfile(HFILEID f)
{
    return f == LK_FID ? g_vf : NULL;
}
TBBT_TREE *vtree;
#endif

/* atom.c -- A-ATOM1 */
int32         g_key;
int           g_grp;
vginstance_t *g_obj;
VGROUP       *g_vg;
group_t
HAatom_group(atom_t atm)
{
    return atm == g_key ? (group_t)g_grp : BADGROUP;
}
void *
HAatom_object(atom_t atm)
{
    return atm == g_key ? (void *)g_obj : NULL;
}

/* libc string functions on vgroup names (A-STR): the harness builds the one string the call reads (g_str, true length g_len, no NUL
   before g_len); strlen returns that length, strcpy checks that the destination takes g_len + 1 bytes, is exact on the ghost
   character g_c and on the terminator and leaves the other bytes of the destination arbitrary.  (cbmc's own strcpy / strlen on heap
   strings of symbolic length do not terminate in practice.)  Native replay uses the real libc. */
const char *g_str;
size_t      g_len, g_c;
int         g_bad_str;
#if defined(H4V_CBMC) && !defined(LK_VIO) && !defined(H4V_CEX) /* counterexample mode: short strings, cbmc's own libc models */
size_t
strlen(const char *s)
{
    if (s != g_str)
        g_bad_str++;
    return g_len;
}
char *
strcpy(char *d, const char *s)
{
    if (s != g_str)
        g_bad_str++;
    __CPROVER_assert(__CPROVER_r_ok(s, g_len + 1), "H4V: strcpy source is a string");
    __CPROVER_assert(__CPROVER_w_ok(d, g_len + 1), "H4V: strcpy destination holds the string and its terminator");
    __CPROVER_havoc_object(d);
    if (g_c < g_len)
        d[g_c] = s[g_c];
    d[g_len] = '\0';
    return d;
}
#endif

#define H4V_LOOPS_vg_lookup
#ifdef LK_VIO
#include "vio.c"
#else
#include "vgp.c"
#endif

/* ------------------------------------------------------------------ contracts: table iteration */
/* Vgetid(f, id) / VSgetid(f, id): id == -1: the ref of the first object of the table; id >= 0: the ref of the in-order successor of
   the object with ref id; FAIL when there is none (empty table, id not in the table, id is the last one), for a file that is not
   V-initialised and for id < -1.  Whatever is returned is the ref of a node of the table; nothing is modified. */
#define LK_EXPECT(f, id)                                                                                         \
    (((f) != LK_FID || g_vf == NULL || (id) < -1) ? FAIL                                                         \
     : (id) == -1 ? (g_empty ? FAIL : LK_RFIRST)                                                                 \
                  : ((g_found && g_has_next) ? (int32)g_inext.ref : FAIL))
#ifndef LK_VIO
int32 Vgetid(HFILEID f, int32 vgid)
    __CPROVER_requires(LK_WF(vgid))
    __CPROVER_assigns()
    __CPROVER_ensures(__CPROVER_return_value == LK_EXPECT(f, vgid))
    __CPROVER_ensures((__CPROVER_return_value != FAIL && vgid >= 0) ==> __CPROVER_return_value > vgid)
    __CPROVER_ensures(g_bad_tbbt == 0);
#else
int32 VSgetid(HFILEID f, int32 vsid)
    __CPROVER_requires(LK_WF(vsid))
    __CPROVER_assigns()
    __CPROVER_ensures(__CPROVER_return_value == LK_EXPECT(f, vsid))
    __CPROVER_ensures((__CPROVER_return_value != FAIL && vsid >= 0) ==> __CPROVER_return_value > vsid)
    __CPROVER_ensures(g_bad_tbbt == 0);
#endif

#ifndef LK_VIO
/* ------------------------------------------------------------------ contracts: inside one vgroup */
#define VG_WF(vg) ((vg)->msize > 0 && (vg)->msize <= 131070 && (int)(vg)->nvelt <= (vg)->msize && (vg)->tag != NULL && (vg)->ref != NULL)
#define VKEY_OK(vkey) ((vkey) == g_key && g_grp == VGIDGROUP && g_obj != NULL && g_obj->vg != NULL)
#define LK_VSET(k) (g_vg->tag[k] == DFTAG_VG || g_vg->tag[k] == VSDESCTAG)
#define LK_ISVG(k, id) (g_vg->ref[k] == (uint16)(id) && g_vg->tag[k] == DFTAG_VG)
#define LK_ISVS(k, id) (g_vg->ref[k] == (uint16)(id) && g_vg->tag[k] == VSDESCTAG)

/* Visvg / Visvs: TRUE iff some member is (DFTAG_VG, id) resp. (DFTAG_VH, id).  Pointwise: FALSE with a valid handle => ghost member
   g_k is no such member (for every g_k: no member is); TRUE => valid handle and a non-empty group.  "TRUE => some member matches" is
   checked against the exact model for groups of <= 4 members (lk_Visvg_model / lk_Visvs_model). */
int Visvg(int32 vkey, int32 id)
    __CPROVER_requires(VG_WF(g_vg) && g_k < (unsigned)g_vg->msize)
    __CPROVER_assigns()
    __CPROVER_ensures(__CPROVER_return_value == TRUE || __CPROVER_return_value == FALSE)
    __CPROVER_ensures(!VKEY_OK(vkey) ==> __CPROVER_return_value == FALSE)
    __CPROVER_ensures((VKEY_OK(vkey) && g_k < g_vg->nvelt && LK_ISVG(g_k, id)) ==> __CPROVER_return_value == TRUE)
    __CPROVER_ensures(__CPROVER_return_value == TRUE ==> (VKEY_OK(vkey) && g_vg->nvelt > 0));
int Visvs(int32 vkey, int32 id)
    __CPROVER_requires(VG_WF(g_vg) && g_k < (unsigned)g_vg->msize)
    __CPROVER_assigns()
    __CPROVER_ensures(__CPROVER_return_value == TRUE || __CPROVER_return_value == FALSE)
    __CPROVER_ensures(!VKEY_OK(vkey) ==> __CPROVER_return_value == FALSE)
    __CPROVER_ensures((VKEY_OK(vkey) && g_k < g_vg->nvelt && LK_ISVS(g_k, id)) ==> __CPROVER_return_value == TRUE)
    __CPROVER_ensures(__CPROVER_return_value == TRUE ==> (VKEY_OK(vkey) && g_vg->nvelt > 0));

/* Vgetnext(vkey, id): id == -1: the ref of the first member if that is a vgroup or vdata; otherwise the ref of the member that
   follows the FIRST vgroup/vdata member with ref id, if that follower is a vgroup or vdata; FAIL in every other case.
   Pointwise part (any member count): the failure cases, the "first member" cases, and "no vgroup/vdata member at or before g_k has
   ref id and the result is not FAIL" is impossible for the last position.  The full function is compared with the exact model for
   groups of <= 4 members (lk_Vgetnext_model). */
#define LK_GN_OK(vkey, id) (VKEY_OK(vkey) && (id) >= -1 && g_vg->otag == DFTAG_VG)
int32 Vgetnext(int32 vkey, int32 id)
    __CPROVER_requires(VG_WF(g_vg) && g_k < (unsigned)g_vg->msize)
    __CPROVER_assigns()
    __CPROVER_ensures(__CPROVER_return_value == FAIL || (__CPROVER_return_value >= 0 && __CPROVER_return_value <= 65535))
    __CPROVER_ensures((!LK_GN_OK(vkey, id) || g_vg->nvelt == 0) ==> __CPROVER_return_value == FAIL)
    __CPROVER_ensures((LK_GN_OK(vkey, id) && g_vg->nvelt > 0 && id == -1 && LK_VSET(0)) ==> __CPROVER_return_value == (int32)g_vg->ref[0])
    /* the first member is the one asked for: its successor, if a vgroup/vdata */
    __CPROVER_ensures((LK_GN_OK(vkey, id) && g_vg->nvelt > 0 && id >= 0 && LK_VSET(0) && g_vg->ref[0] == (uint16)id) ==>
                      __CPROVER_return_value == ((g_vg->nvelt > 1 && LK_VSET(1)) ? (int32)g_vg->ref[1] : FAIL))
    /* a result is the ref of a member only if some vgroup/vdata member has ref id: a group without one answers FAIL (pointwise:
       a non-FAIL answer for id >= 0 and "member g_k is the last one and the only candidate" is contradictory -- see the model) */
    __CPROVER_ensures((LK_GN_OK(vkey, id) && id >= 0 && g_vg->nvelt == 1) ==> __CPROVER_return_value == FAIL);

/* ------------------------------------------------------------------ contracts: name / class / count read-out */
/* the string the call reads (A-STR) */
#define LK_NAME_OK (g_vg->vgname == NULL || (g_vg->vgname == g_str && g_len <= 65535 && g_c < g_len))
#define LK_CLASS_OK (g_vg->vgclass == NULL || (g_vg->vgclass == g_str && g_len <= 65535 && g_c < g_len))
/* Vgetname / Vgetclass: the caller's buffer holds the name (documented: "allocated large enough"): exactly strlen + 1 bytes here, so
   that any write beyond the terminator is an out-of-bounds write.  An unnamed group gives the empty string. */
int32 Vgetname(int32 vkey, char *vgname)
    __CPROVER_requires(VG_WF(g_vg) && LK_NAME_OK && g_bad_str == 0)
    __CPROVER_requires(vgname == NULL || __CPROVER_is_fresh(vgname, (g_vg->vgname == NULL ? 0 : g_len) + 1))
    __CPROVER_assigns(vgname != NULL: __CPROVER_object_whole(vgname))
    __CPROVER_ensures((!VKEY_OK(vkey) || vgname == NULL) ==> __CPROVER_return_value == FAIL)
    __CPROVER_ensures((VKEY_OK(vkey) && vgname != NULL) ==> __CPROVER_return_value == SUCCEED)
    __CPROVER_ensures((VKEY_OK(vkey) && vgname != NULL && g_vg->vgname == NULL) ==> vgname[0] == '\0')
    __CPROVER_ensures((VKEY_OK(vkey) && vgname != NULL && g_vg->vgname != NULL) ==> (vgname[g_c] == g_vg->vgname[g_c] && vgname[g_len] == '\0'))
    __CPROVER_ensures(g_bad_str == 0);
int32 Vgetclass(int32 vkey, char *vgclass)
    __CPROVER_requires(VG_WF(g_vg) && LK_CLASS_OK && g_bad_str == 0)
    __CPROVER_requires(vgclass == NULL || __CPROVER_is_fresh(vgclass, (g_vg->vgclass == NULL ? 0 : g_len) + 1))
    __CPROVER_assigns(vgclass != NULL: __CPROVER_object_whole(vgclass))
    __CPROVER_ensures((!VKEY_OK(vkey) || vgclass == NULL) ==> __CPROVER_return_value == FAIL)
    __CPROVER_ensures((VKEY_OK(vkey) && vgclass != NULL) ==> __CPROVER_return_value == SUCCEED)
    __CPROVER_ensures((VKEY_OK(vkey) && vgclass != NULL && g_vg->vgclass == NULL) ==> vgclass[0] == '\0')
    __CPROVER_ensures((VKEY_OK(vkey) && vgclass != NULL && g_vg->vgclass != NULL) ==> (vgclass[g_c] == g_vg->vgclass[g_c] && vgclass[g_len] == '\0'))
    __CPROVER_ensures(g_bad_str == 0);
/* Vgetnamelen / Vgetclassnamelen: the length of the string, 0 for an unset one; nothing is stored on failure */
int32 Vgetnamelen(int32 vkey, uint16 *name_len)
    __CPROVER_requires(VG_WF(g_vg) && LK_NAME_OK && g_bad_str == 0 && name_len != NULL)
    __CPROVER_assigns(*name_len)
    __CPROVER_ensures(!VKEY_OK(vkey) ==> (__CPROVER_return_value == FAIL && *name_len == __CPROVER_old(*name_len)))
    __CPROVER_ensures(VKEY_OK(vkey) ==> (__CPROVER_return_value == SUCCEED && (size_t)*name_len == (g_vg->vgname == NULL ? (size_t)0 : g_len)))
    __CPROVER_ensures(g_bad_str == 0);
int32 Vgetclassnamelen(int32 vkey, uint16 *classname_len)
    __CPROVER_requires(VG_WF(g_vg) && LK_CLASS_OK && g_bad_str == 0 && classname_len != NULL)
    __CPROVER_assigns(*classname_len)
    __CPROVER_ensures(!VKEY_OK(vkey) ==> (__CPROVER_return_value == FAIL && *classname_len == __CPROVER_old(*classname_len)))
    __CPROVER_ensures(VKEY_OK(vkey) ==> (__CPROVER_return_value == SUCCEED && (size_t)*classname_len == (g_vg->vgclass == NULL ? (size_t)0 : g_len)))
    __CPROVER_ensures(g_bad_str == 0);
/* Vinquire: member count and name, each optional.  An unnamed group (vgname == NULL: every group created by Vattach(f, -1, "w")
   until Vsetname is called) has the empty name, as Vgetname reports it. */
int Vinquire(int32 vkey, int32 *nentries, char *vgname)
    __CPROVER_requires(VG_WF(g_vg) && LK_NAME_OK && g_bad_str == 0)
    __CPROVER_requires(nentries == NULL || __CPROVER_is_fresh(nentries, sizeof(int32)))
    __CPROVER_requires(vgname == NULL || __CPROVER_is_fresh(vgname, (g_vg->vgname == NULL ? 0 : g_len) + 1))
    __CPROVER_assigns(vgname != NULL: __CPROVER_object_whole(vgname); nentries != NULL: *nentries)
    __CPROVER_ensures((!VKEY_OK(vkey) || g_vg->otag != DFTAG_VG) ==> __CPROVER_return_value == FAIL)
    __CPROVER_ensures((VKEY_OK(vkey) && g_vg->otag == DFTAG_VG) ==> __CPROVER_return_value == SUCCEED)
    __CPROVER_ensures((__CPROVER_return_value == SUCCEED && nentries != NULL) ==> *nentries == (int32)g_vg->nvelt)
    __CPROVER_ensures((__CPROVER_return_value == SUCCEED && vgname != NULL && g_vg->vgname == NULL) ==> vgname[0] == '\0')
    __CPROVER_ensures((__CPROVER_return_value == SUCCEED && vgname != NULL && g_vg->vgname != NULL) ==> (vgname[g_c] == g_vg->vgname[g_c] && vgname[g_len] == '\0'))
    __CPROVER_ensures(g_bad_str == 0);
#endif /* !LK_VIO */

#ifdef H4V_NATIVE
#include "h4v_native_wrap.h"
#endif

/* ------------------------------------------------------------------ harnesses */
static int32
lk_mk_window(void)
{
    H4V_ND(int32, id);
    H4V_ND(int, vf_null);
    H4V_HAVOC(int, g_tree_null);
    H4V_HAVOC(int, g_empty);
    H4V_HAVOC(int, g_found);
    H4V_HAVOC(int, g_has_next);
    H4V_HAVOC(int, g_first_is_cur);
    H4V_HAVOC(int, g_last_is_next);
    H4V_HAVOC(int, g_single);
    H4V_ND(unsigned, rfirst);
    H4V_ND(unsigned, rcur);
    H4V_ND(unsigned, rnext);
    H4V_ND(unsigned, rlast);
    H4V_ASSUME(rfirst < rcur && rcur < rnext && rnext < rlast && rlast <= 65535);
    H4V_ASSUME((!g_tree_null || g_empty) && (!g_empty || !g_found) && (g_found || !g_has_next));
    H4V_ASSUME(g_found ? (int32)rcur == id : ((int32)rfirst != id && (int32)rlast != id));
    memset(&g_ifirst, 0, sizeof g_ifirst);
    memset(&g_icur, 0, sizeof g_icur);
    memset(&g_inext, 0, sizeof g_inext);
    memset(&g_ilast, 0, sizeof g_ilast);
    g_ifirst.ref = rfirst; g_ifirst.key = (int32)rfirst;
    g_icur.ref   = rcur;   g_icur.key   = (int32)rcur;
    g_inext.ref  = rnext;  g_inext.key  = (int32)rnext;
    g_ilast.ref  = rlast;  g_ilast.key  = (int32)rlast;
    memset(&g_nfirst, 0, sizeof g_nfirst);
    memset(&g_ncur, 0, sizeof g_ncur);
    memset(&g_nnext, 0, sizeof g_nnext);
    memset(&g_nlast, 0, sizeof g_nlast);
    memset(&g_fnode, 0, sizeof g_fnode);
    g_nfirst.data = &g_ifirst; g_nfirst.key = &g_ifirst.key;
    g_ncur.data   = &g_icur;   g_ncur.key   = &g_icur.key;
    g_nnext.data  = &g_inext;  g_nnext.key  = &g_inext.key;
    g_nlast.data  = &g_ilast;  g_nlast.key  = &g_ilast.key;
    memset(&g_tree, 0, sizeof g_tree);
    memset(&g_vtree_obj, 0, sizeof g_vtree_obj);
    g_tree.root = LK_PFIRST;
    vtree       = &g_vtree_obj;
    g_bad_tbbt  = 0;
    vfile_t *vf = malloc(sizeof(vfile_t));
    H4V_ASSUME(vf != NULL);
    memset(vf, 0, sizeof(vfile_t));
    vf->f       = LK_FID;
    LK_TREE(vf) = g_tree_null ? NULL : &g_tree;
    g_vf        = vf_null ? NULL : vf;
    g_fnode.data = g_vf;
    return id;
}

void
h_getid(void)
{
    int32 id = lk_mk_window();
    H4V_ND(int32, f);
#ifdef LK_VIO
    int32 r = VSgetid(f, id);
#else
    int32 r = Vgetid(f, id);
#endif
    H4V_COVER(id == -1 && r != FAIL, "getid: first");
    H4V_COVER(id == -1 && r == FAIL && f == LK_FID && g_vf != NULL && !g_tree_null, "getid: empty table");
    H4V_COVER(id >= 0 && r != FAIL, "getid: next");
    H4V_COVER(id >= 0 && r == FAIL && g_found, "getid: id is the last one");
    H4V_COVER(id >= 0 && r == FAIL && !g_found && !g_empty && f == LK_FID && g_vf != NULL, "getid: id not in the table");
    H4V_COVER(id < -1, "getid: bad id");
    H4V_CANARY("getid end");
}

#ifndef LK_VIO
/* ------------------------------------------------------------------ harnesses: one vgroup behind a handle (as in vgp_u.c) */
#define VG_CAP 6
#define MK_VG(vg)                                                                                                 \
    VGROUP *vg = malloc(sizeof(VGROUP));                                                                          \
    H4V_ASSUME(vg != NULL);                                                                                       \
    memset(vg, 0, sizeof(VGROUP));                                                                                \
    H4V_ND(uint16, vg_nvelt);                                                                                     \
    H4V_ND(int, vg_msize);                                                                                        \
    H4V_ND(uint16, vg_otag);                                                                                      \
    H4V_ASSUME(vg_msize > 0 && vg_msize <= 131070 && (int)vg_nvelt <= vg_msize);                                  \
    vg->nvelt = vg_nvelt;                                                                                         \
    vg->msize = vg_msize;                                                                                         \
    vg->otag  = vg_otag;                                                                                          \
    g_vg      = vg;                                                                                               \
    H4V_ND_BUF(uint16, vg_tag, vg_msize, VG_CAP);                                                                 \
    H4V_ND_BUF(uint16, vg_ref, vg_msize, VG_CAP);                                                                 \
    vg->tag = vg_tag;                                                                                             \
    vg->ref = vg_ref
#define MK_KEY(vkey, vg)                                                                                          \
    H4V_ND(int32, vkey);                                                                                          \
    H4V_ND(int32, reg_key);                                                                                       \
    H4V_ND(int, reg_grp);                                                                                         \
    H4V_ND(int, obj_null);                                                                                        \
    H4V_ND(int, vg_null);                                                                                         \
    vginstance_t *inst = malloc(sizeof(vginstance_t));                                                            \
    H4V_ASSUME(inst != NULL);                                                                                     \
    memset(inst, 0, sizeof(vginstance_t));                                                                        \
    inst->vg = vg_null ? NULL : vg;                                                                               \
    g_key    = reg_key;                                                                                           \
    g_grp    = reg_grp;                                                                                           \
    g_obj    = obj_null ? NULL : inst
#define HAVOC_GHOSTS()                                                                                            \
    H4V_HAVOC(unsigned, g_k);                                                                                     \
    H4V_HAVOC(unsigned, g_j)

void
h_Visvg(void)
{
    HAVOC_GHOSTS();
    MK_VG(vg);
    MK_KEY(vkey, vg);
    H4V_ND(int32, id);
    int r = Visvg(vkey, id);
    H4V_COVER(r == TRUE, "Visvg found");
    H4V_COVER(r == FALSE && VKEY_OK(vkey) && vg->nvelt > 0, "Visvg not found");
    H4V_CANARY("Visvg end");
}
void
h_Visvs(void)
{
    HAVOC_GHOSTS();
    MK_VG(vg);
    MK_KEY(vkey, vg);
    H4V_ND(int32, id);
    int r = Visvs(vkey, id);
    H4V_COVER(r == TRUE, "Visvs found");
    H4V_COVER(r == FALSE && VKEY_OK(vkey) && vg->nvelt > 0, "Visvs not found");
    H4V_CANARY("Visvs end");
}
void
h_Vgetnext(void)
{
    HAVOC_GHOSTS();
    MK_VG(vg);
    MK_KEY(vkey, vg);
    H4V_ND(int32, id);
    int32 r = Vgetnext(vkey, id);
    H4V_COVER(r != FAIL && id == -1, "Vgetnext first");
    H4V_COVER(r != FAIL && id >= 0, "Vgetnext next");
    H4V_COVER(r == FAIL && LK_GN_OK(vkey, id) && vg->nvelt > 1, "Vgetnext no next");
    H4V_CANARY("Vgetnext end");
}

/* bounded exact reference models (groups of <= MM_N members) */
#define MM_N 4
#define MM_SETUP()                                                                                                \
    HAVOC_GHOSTS();                                                                                               \
    MK_VG(vg);                                                                                                    \
    H4V_ASSUME(vg->msize <= MM_N + 1 && vg->nvelt <= MM_N);                                                       \
    MK_KEY(vkey, vg);                                                                                             \
    H4V_ND(int32, id)
void
h_Visvg_model(void)
{
    MM_SETUP();
    int exp = FALSE;
    for (unsigned k = 0; k < MM_N; k++)
        if (VKEY_OK(vkey) && k < vg->nvelt && vg->tag[k] == DFTAG_VG && vg->ref[k] == (uint16)id)
            exp = TRUE;
    int r = Visvg(vkey, id);
    H4V_CHECK(r == exp, "Visvg == (some member is the vgroup id)");
    H4V_COVER(r == TRUE && vg->nvelt == MM_N, "Visvg model found");
    H4V_CANARY("Visvg_model end");
}
void
h_Visvs_model(void)
{
    MM_SETUP();
    int exp = FALSE;
    for (unsigned k = 0; k < MM_N; k++)
        if (VKEY_OK(vkey) && k < vg->nvelt && vg->tag[k] == DFTAG_VH && vg->ref[k] == (uint16)id)
            exp = TRUE;
    int r = Visvs(vkey, id);
    H4V_CHECK(r == exp, "Visvs == (some member is the vdata id)");
    H4V_COVER(r == TRUE && vg->nvelt == MM_N, "Visvs model found");
    H4V_CANARY("Visvs_model end");
}
void
h_Vgetnext_model(void)
{
    MM_SETUP();
    int32 exp = FAIL;
    if (LK_GN_OK(vkey, id) && vg->nvelt > 0) {
        if (id == -1) { /* -1 asks for the first entry; it is no member's id (D78) */
            if (LK_VSET(0))
                exp = (int32)vg->ref[0];
        }
        else {
            unsigned f = MM_N; /* the first vgroup/vdata member with ref (uint16)id */
            for (unsigned k = 0; k < MM_N; k++)
                if (f == MM_N && k < vg->nvelt && LK_VSET(k) && vg->ref[k] == (uint16)id)
                    f = k;
            if (f < MM_N && f + 1 < vg->nvelt && LK_VSET(f + 1))
                exp = (int32)vg->ref[f + 1];
        }
    }
    int32 r = Vgetnext(vkey, id);
    H4V_CHECK(r == exp, "Vgetnext == ref of the vgroup/vdata member following the first one with ref id");
    H4V_COVER(r != FAIL && id >= 0 && vg->nvelt == MM_N, "Vgetnext model next");
    H4V_CANARY("Vgetnext_model end");
}

/* C08 "iteration visits precisely the existing objects": Vgetnext(vkey, -1) asks for the FIRST entry; a group whose first member is
   no vgroup/vdata has none to report (the documented FAIL).  Found D78 with this obligation (repaired): the code fell through into the
   search with (uint16)(-1) == 65535 and answered with the successor of a vgroup/vdata member whose ref is 65535. */
void
h_Vgetnext_first_model(void)
{
    MM_SETUP();
    H4V_ASSUME(id == -1);
    int32 r = Vgetnext(vkey, id);
    H4V_CHECK(!(LK_GN_OK(vkey, id) && vg->nvelt > 0 && !LK_VSET(0)) || r == FAIL, "Vgetnext(-1): FAIL when the first member is no vgroup/vdata");
    H4V_CHECK(!(LK_GN_OK(vkey, id) && vg->nvelt > 0 && LK_VSET(0)) || r == (int32)vg->ref[0], "Vgetnext(-1): the first member");
    H4V_CANARY("Vgetnext_first_model end");
}

/* name / class read-out */
#define LK_CAP 8
#if defined(H4V_CEX) || !defined(H4V_CBMC)
#define LK_NO_NUL(b)                                                                                              \
    for (size_t b##_i = 0; b##_i < LK_CAP; b##_i++)                                                               \
        H4V_ASSUME(b##_i >= g_len || b[b##_i] != '\0')
#else
#define LK_NO_NUL(b) ((void)0) /* A-STR: strlen is told the length */
#endif
#define MK_STR(fld)                                                                                               \
    H4V_HAVOC(size_t, g_len);                                                                                     \
    H4V_HAVOC(size_t, g_c);                                                                                       \
    H4V_ND(int, str_null);                                                                                        \
    H4V_ASSUME(g_len <= 65535 && g_c < g_len);                                                                    \
    H4V_ND_BUF(char, sbuf, g_len + 1, LK_CAP);                                                                    \
    sbuf[g_len] = '\0';                                                                                           \
    LK_NO_NUL(sbuf);                                                                                              \
    g_str       = sbuf;                                                                                           \
    g_bad_str   = 0;                                                                                              \
    vg->fld     = str_null ? NULL : sbuf
#define MK_OUT(out, fld)                                                                                          \
    H4V_ND(int, out_null);                                                                                        \
    char *out##_b = malloc((vg->fld == NULL ? 0 : g_len) + 1);                                                    \
    H4V_ASSUME(out##_b != NULL);                                                                                  \
    char *out = out_null ? NULL : out##_b
void
h_Vgetname(void)
{
    HAVOC_GHOSTS();
    MK_VG(vg);
    MK_KEY(vkey, vg);
    MK_STR(vgname);
    MK_OUT(out, vgname);
    int32 r = Vgetname(vkey, out);
    H4V_COVER(r == SUCCEED && vg->vgname != NULL && g_len > 70, "Vgetname long name");
    H4V_COVER(r == SUCCEED && vg->vgname == NULL, "Vgetname unnamed");
    H4V_CANARY("Vgetname end");
}
void
h_Vgetclass(void)
{
    HAVOC_GHOSTS();
    MK_VG(vg);
    MK_KEY(vkey, vg);
    MK_STR(vgclass);
    MK_OUT(out, vgclass);
    int32 r = Vgetclass(vkey, out);
    H4V_COVER(r == SUCCEED && vg->vgclass != NULL && g_len > 70, "Vgetclass long class");
    H4V_COVER(r == SUCCEED && vg->vgclass == NULL, "Vgetclass no class");
    H4V_CANARY("Vgetclass end");
}
void
h_Vgetnamelen(void)
{
    HAVOC_GHOSTS();
    MK_VG(vg);
    MK_KEY(vkey, vg);
    MK_STR(vgname);
    H4V_ND(uint16, len0);
    uint16 len = len0;
    int32  r   = Vgetnamelen(vkey, &len);
    H4V_COVER(r == SUCCEED && len > 70, "Vgetnamelen long name");
    H4V_COVER(r == SUCCEED && vg->vgname == NULL, "Vgetnamelen unnamed");
    H4V_CANARY("Vgetnamelen end");
}
void
h_Vgetclassnamelen(void)
{
    HAVOC_GHOSTS();
    MK_VG(vg);
    MK_KEY(vkey, vg);
    MK_STR(vgclass);
    H4V_ND(uint16, len0);
    uint16 len = len0;
    int32  r   = Vgetclassnamelen(vkey, &len);
    H4V_COVER(r == SUCCEED && len > 70, "Vgetclassnamelen long class");
    H4V_COVER(r == SUCCEED && vg->vgclass == NULL, "Vgetclassnamelen no class");
    H4V_CANARY("Vgetclassnamelen end");
}
static void
lk_inquire(int named)
{
    HAVOC_GHOSTS();
    MK_VG(vg);
    MK_KEY(vkey, vg);
    MK_STR(vgname);
    H4V_ASSUME(named ? !str_null : str_null);
    MK_OUT(out, vgname);
    H4V_ND(int, n_null);
    H4V_ND(int32, n0);
    int32 *np = malloc(sizeof(int32));
    H4V_ASSUME(np != NULL);
    *np     = n0;
    int   r = Vinquire(vkey, n_null ? NULL : np, out);
    H4V_COVER(r == SUCCEED && out != NULL && !n_null, "Vinquire both");
    H4V_COVER(r == SUCCEED && out == NULL && n_null, "Vinquire neither");
    H4V_CANARY("Vinquire end");
}
void
h_Vinquire(void)
{
    lk_inquire(1);
}
/* a group that has no name yet (new group before Vsetname; old file without a name) */
void
h_Vinquire_unnamed(void)
{
    lk_inquire(0);
}
#endif /* !LK_VIO */

/* Verification unit: hdf/src/dfgroup.c  (C20: the fixed table of MAX_GROUPS open group lists and the
   fixed-capacity DI lists behind it: a full table / a full list / an id of the wrong kind or with
   an out-of-range slot fail with FAIL and never index Group_list or a DI list out of bounds). */
#include "h4v.h"
#include "h4v_err.h"
#include <string.h>

/* ---------------- ghost environment ---------------- */
int   g_validfid; /* answer of HDvalidfid */
int32 g_hlen;     /* answer of Hlength */
int32 g_get_ret;  /* answer of Hgetelement */
int32 g_put_ret;  /* answer of Hputelement */
/* what Hputelement was asked to write */
int          g_put_calls;
const uint8 *g_put_data;
int32        g_put_len;
uint16       g_put_tag, g_put_ref;
int          g_get_calls;

int
HDvalidfid(int32 file_id)
{
    return g_validfid;
}
int32
Hlength(int32 file_id, uint16 tag, uint16 ref)
{
    return g_hlen;
}
/* trusted stub: the real one stores Hlength() bytes at data */
int32
Hgetelement(int32 file_id, uint16 tag, uint16 ref, uint8 *data)
{
    g_get_calls++;
#ifdef H4V_CBMC
    H4V_CHECK(g_hlen == 0 || __CPROVER_w_ok(data, g_hlen), "Hgetelement is given room for the whole element");
#endif
    return g_get_ret;
}
/* trusted stub: the real one reads length bytes from data */
int32
Hputelement(int32 file_id, uint16 tag, uint16 ref, const uint8 *data, int32 length)
{
    g_put_calls++;
    g_put_data = data;
    g_put_len  = length;
    g_put_tag  = tag;
    g_put_ref  = ref;
#ifdef H4V_CBMC
    H4V_CHECK(length >= 0 && (length == 0 || __CPROVER_r_ok(data, length)), "Hputelement reads inside the DI list");
#endif
    return g_put_ret;
}

/* allocation failures are observable: g_alloc_failed is raised whenever the real code gets NULL from malloc */
int g_alloc_failed;
static void *
h4v_malloc(size_t n)
{
    void *p = malloc(n);
    if (p == NULL)
        g_alloc_failed = 1;
    return p;
}
#define malloc(n) h4v_malloc(n)
#include "dfgroup.c"
#undef malloc

/* ---------------- ghosts of the contracts ---------------- */
DIlist_ptr g_rec;   /* the record of the addressed slot (always valid memory on entry) */
uint8     *g_buf;   /* its DI buffer on entry */
int        g_slot;  /* the addressed slot (== list & 0xffff whenever the id is valid) */
int        g_k;     /* any slot */
int32      g_o;     /* any byte offset of the DI buffer */
uint8      g_old_o; /* buffer[g_o] on entry (harness snapshot; 0 if g_o is outside) */
uint16     g_exp_tag, g_exp_ref; /* the pair at position current on entry (harness snapshot) */
int        g_old_cur, g_old_num;

/* the specification of a valid group id, written independently of the VALIDGID/GID2REC macros of dfgroup.c:
   kind GROUPTYPE in the upper half, a slot below MAX_GROUPS in the lower half */
#define GID_OK(i)   ((uint16)((uint32)(i) >> 16) == GROUPTYPE && (uint16)((uint32)(i) & 0xffffu) < MAX_GROUPS)
#define GID_SLOT(i) ((int)((uint32)(i) & 0xffff))
/* the id addresses an occupied slot */
#define GID_HIT(i) (GID_OK(i) && Group_list[GID_SLOT(i)] != NULL)
/* representation invariant of a DI list: capacity num DIs of 4 bytes, current of them in use */
#define DI_MAXNUM 0x1fffffff
#define DI_WF(r)  ((r)->num >= 0 && (r)->num <= DI_MAXNUM && (r)->current >= 0 && (r)->current <= (r)->num && (r)->DIlist != NULL)
/* environment the harness builds: the addressed slot holds g_rec or NULL; g_slot is the addressed slot */
#define ENV_REQ(i)                                                                                                     \
    (g_slot >= 0 && g_slot < MAX_GROUPS && g_k >= 0 && g_k < MAX_GROUPS && (!GID_OK(i) || g_slot == GID_SLOT(i)) &&    \
     (Group_list[g_slot] == NULL || Group_list[g_slot] == g_rec) && g_rec != NULL && g_rec->DIlist == g_buf &&         \
     g_rec->current == g_old_cur && g_rec->num == g_old_num)

/* ---- setgroupREC: first free slot, or FAIL when all MAX_GROUPS slots are taken ---- */
static int32 setgroupREC(DIlist_ptr list_rec)
    __CPROVER_requires(list_rec != NULL)
    __CPROVER_requires(g_k >= 0 && g_k < MAX_GROUPS && g_slot >= 0 && g_slot < MAX_GROUPS)
    __CPROVER_assigns(__CPROVER_object_whole(Group_list))
    /* FAIL exactly when the table is full (g_slot: any slot) */
    __CPROVER_ensures(__CPROVER_return_value == FAIL ==> __CPROVER_old(Group_list[g_slot]) != NULL)
    __CPROVER_ensures(__CPROVER_return_value == FAIL ==> Group_list[g_k] == __CPROVER_old(Group_list[g_k]))
    __CPROVER_ensures(__CPROVER_old(Group_list[g_slot]) == NULL ==> __CPROVER_return_value != FAIL)
    /* success: an id of the group kind whose slot is in range, was free, is the FIRST free one, and now holds list_rec */
    __CPROVER_ensures(__CPROVER_return_value != FAIL ==>
                      (GID_OK(__CPROVER_return_value) && __CPROVER_return_value > 0 &&
                       Group_list[GID_SLOT(__CPROVER_return_value)] == list_rec))
    __CPROVER_ensures((__CPROVER_return_value != FAIL && g_k == GID_SLOT(__CPROVER_return_value)) ==>
                      __CPROVER_old(Group_list[g_k]) == NULL)
    __CPROVER_ensures((__CPROVER_return_value != FAIL && g_k < GID_SLOT(__CPROVER_return_value)) ==>
                      __CPROVER_old(Group_list[g_k]) != NULL)
    __CPROVER_ensures((__CPROVER_return_value != FAIL && g_k != GID_SLOT(__CPROVER_return_value)) ==>
                      Group_list[g_k] == __CPROVER_old(Group_list[g_k]));

/* ---- DFdiget ---- */
int DFdiget(int32 list, uint16 *ptag, uint16 *pref)
    __CPROVER_requires(ENV_REQ(list) && DI_WF(g_rec) && ptag != NULL && pref != NULL)
    __CPROVER_assigns(*ptag, *pref, g_rec->current, Group_list[g_slot])
    __CPROVER_frees(g_rec, g_buf)
    __CPROVER_ensures(__CPROVER_return_value == SUCCEED || __CPROVER_return_value == FAIL)
    /* wrong kind of id, slot out of range, empty slot, or past the end: FAIL, nothing changes */
    __CPROVER_ensures(__CPROVER_return_value == SUCCEED <==>
                      (GID_OK(list) && __CPROVER_old(Group_list[g_slot]) != NULL && g_old_cur < g_old_num))
    __CPROVER_ensures(__CPROVER_return_value == FAIL ==>
                      (Group_list[g_slot] == __CPROVER_old(Group_list[g_slot]) && g_rec->current == g_old_cur &&
                       g_rec->num == g_old_num && g_rec->DIlist == g_buf && *ptag == __CPROVER_old(*ptag) &&
                       *pref == __CPROVER_old(*pref)))
    /* the pairs come in order */
    __CPROVER_ensures(__CPROVER_return_value == SUCCEED ==> (*ptag == g_exp_tag && *pref == g_exp_ref))
    /* the slot is released exactly when the last pair has been handed out */
    __CPROVER_ensures((__CPROVER_return_value == SUCCEED && g_old_cur + 1 == g_old_num) ==>
                      (Group_list[g_slot] == NULL && __CPROVER_was_freed(g_rec) && __CPROVER_was_freed(g_buf)))
    __CPROVER_ensures((__CPROVER_return_value == SUCCEED && g_old_cur + 1 < g_old_num) ==>
                      (Group_list[g_slot] == g_rec && g_rec->current == g_old_cur + 1 && g_rec->num == g_old_num &&
                       g_rec->DIlist == g_buf))
    __CPROVER_ensures(g_k != g_slot ==> Group_list[g_k] == __CPROVER_old(Group_list[g_k]));

/* ---- DFdinobj ---- */
int DFdinobj(int32 list)
    __CPROVER_requires(ENV_REQ(list))
    __CPROVER_assigns()
    __CPROVER_ensures(__CPROVER_return_value == (GID_HIT(list) ? g_old_num : FAIL));

/* ---- DFdiput: FAIL when the list is full, never a write past the capacity ---- */
int DFdiput(int32 list, uint16 tag, uint16 ref)
    __CPROVER_requires(ENV_REQ(list) && DI_WF(g_rec))
    __CPROVER_assigns(g_rec->current, __CPROVER_object_whole(g_buf))
    __CPROVER_ensures(__CPROVER_return_value == SUCCEED || __CPROVER_return_value == FAIL)
    __CPROVER_ensures(__CPROVER_return_value == SUCCEED <==> (GID_HIT(list) && g_old_cur < g_old_num))
    __CPROVER_ensures(g_rec->current == g_old_cur + (__CPROVER_return_value == SUCCEED ? 1 : 0))
    __CPROVER_ensures(g_rec->current >= 0 && g_rec->current <= g_rec->num && g_rec->num == g_old_num &&
                      g_rec->DIlist == g_buf)
    /* the pair lands big-endian at position old current; every other byte of the list keeps its value */
    __CPROVER_ensures(__CPROVER_return_value == SUCCEED ==>
                      (g_buf[4 * g_old_cur] == (uint8)(tag >> 8) && g_buf[4 * g_old_cur + 1] == (uint8)(tag & 0xff) &&
                       g_buf[4 * g_old_cur + 2] == (uint8)(ref >> 8) && g_buf[4 * g_old_cur + 3] == (uint8)(ref & 0xff)))
    __CPROVER_ensures((g_o >= 0 && g_o < 4 * g_old_num &&
                       (__CPROVER_return_value == FAIL || g_o < 4 * g_old_cur || g_o >= 4 * g_old_cur + 4)) ==>
                      g_buf[g_o] == g_old_o)
    __CPROVER_ensures(Group_list[g_k] == __CPROVER_old(Group_list[g_k]));

/* ---- DFdisetup ---- */
#ifndef SETUP_LO
#define SETUP_LO 0
#define SETUP_HI DI_MAXNUM
#endif
int32 DFdisetup(int maxsize)
    __CPROVER_requires(g_k >= 0 && g_k < MAX_GROUPS && g_slot >= 0 && g_slot < MAX_GROUPS)
    __CPROVER_requires(maxsize >= SETUP_LO && maxsize <= SETUP_HI)
    __CPROVER_requires(g_alloc_failed == 0)
    __CPROVER_assigns(__CPROVER_object_whole(Group_list), g_alloc_failed)
    /* a full table is refused */
    __CPROVER_ensures(__CPROVER_return_value == FAIL ==> Group_list[g_k] == __CPROVER_old(Group_list[g_k]))
    /* success: a valid id; its slot was free and now holds an EMPTY list with room for maxsize pairs */
    __CPROVER_ensures(__CPROVER_return_value != FAIL ==>
                      (GID_OK(__CPROVER_return_value) && __CPROVER_return_value > 0 &&
                       Group_list[GID_SLOT(__CPROVER_return_value)] != NULL &&
                       Group_list[GID_SLOT(__CPROVER_return_value)]->num == maxsize &&
                       Group_list[GID_SLOT(__CPROVER_return_value)]->current == 0 &&
                       Group_list[GID_SLOT(__CPROVER_return_value)]->DIlist != NULL &&
                       (maxsize <= 0 ||
                        __CPROVER_OBJECT_SIZE(Group_list[GID_SLOT(__CPROVER_return_value)]->DIlist) >= 4 * (size_t)maxsize)))
    __CPROVER_ensures((__CPROVER_return_value != FAIL && g_k == GID_SLOT(__CPROVER_return_value)) ==>
                      __CPROVER_old(Group_list[g_k]) == NULL)
    __CPROVER_ensures((__CPROVER_return_value != FAIL && g_k != GID_SLOT(__CPROVER_return_value)) ==>
                      Group_list[g_k] == __CPROVER_old(Group_list[g_k]))
    /* the only reasons to fail: no memory, or no free slot (g_slot: any slot) */
    __CPROVER_ensures((__CPROVER_return_value == FAIL && !g_alloc_failed && maxsize >= 0 && maxsize <= 0x1fffffff) ==>
                      __CPROVER_old(Group_list[g_slot]) != NULL)
    /* C20 (D88): a count whose byte size 4*maxsize does not fit an int is refused, never wrapped */
    __CPROVER_ensures((maxsize < 0 || maxsize > 0x1fffffff) ==> __CPROVER_return_value == FAIL);

/* ---- DFdiread ---- */
int32 DFdiread(int32 file_id, uint16 tag, uint16 ref)
    __CPROVER_requires(g_k >= 0 && g_k < MAX_GROUPS && g_slot >= 0 && g_slot < MAX_GROUPS)
    __CPROVER_requires(g_hlen >= FAIL && g_get_calls == 0 && g_alloc_failed == 0)
    __CPROVER_assigns(__CPROVER_object_whole(Group_list), g_get_calls, g_alloc_failed)
    __CPROVER_ensures((__CPROVER_return_value == FAIL && !g_alloc_failed && g_validfid && g_hlen != FAIL && g_get_ret >= 0) ==>
                      __CPROVER_old(Group_list[g_slot]) != NULL)
    __CPROVER_ensures((!g_validfid || g_hlen == FAIL) ==> (__CPROVER_return_value == FAIL && g_get_calls == 0))
    __CPROVER_ensures((g_get_calls == 1 && g_get_ret < 0) ==> __CPROVER_return_value == FAIL)
    __CPROVER_ensures(__CPROVER_return_value == FAIL ==> Group_list[g_k] == __CPROVER_old(Group_list[g_k]))
    __CPROVER_ensures(__CPROVER_return_value != FAIL ==>
                      (GID_OK(__CPROVER_return_value) && __CPROVER_return_value > 0 && g_get_calls == 1 &&
                       Group_list[GID_SLOT(__CPROVER_return_value)] != NULL &&
                       Group_list[GID_SLOT(__CPROVER_return_value)]->num == g_hlen / 4 &&
                       Group_list[GID_SLOT(__CPROVER_return_value)]->current == 0 &&
                       Group_list[GID_SLOT(__CPROVER_return_value)]->DIlist != NULL &&
                       (g_hlen == 0 ||
                        __CPROVER_OBJECT_SIZE(Group_list[GID_SLOT(__CPROVER_return_value)]->DIlist) >= (size_t)g_hlen)))
    __CPROVER_ensures((__CPROVER_return_value != FAIL && g_k == GID_SLOT(__CPROVER_return_value)) ==>
                      __CPROVER_old(Group_list[g_k]) == NULL)
    __CPROVER_ensures((__CPROVER_return_value != FAIL && g_k != GID_SLOT(__CPROVER_return_value)) ==>
                      Group_list[g_k] == __CPROVER_old(Group_list[g_k]));

/* ---- DFdiwrite: writes exactly the pairs put so far, then releases the slot ---- */
int DFdiwrite(int32 file_id, int32 list, uint16 tag, uint16 ref)
    __CPROVER_requires(ENV_REQ(list) && DI_WF(g_rec) && g_put_calls == 0)
    __CPROVER_assigns(Group_list[g_slot], g_put_calls, g_put_data, g_put_len, g_put_tag, g_put_ref)
    __CPROVER_frees(g_rec, g_buf)
    __CPROVER_ensures((!g_validfid || !GID_OK(list) || __CPROVER_old(Group_list[g_slot]) == NULL) ==>
                      (__CPROVER_return_value == FAIL && g_put_calls == 0 &&
                       Group_list[g_slot] == __CPROVER_old(Group_list[g_slot]) && g_rec->current == g_old_cur &&
                       g_rec->num == g_old_num && g_rec->DIlist == g_buf))
    __CPROVER_ensures((g_validfid && GID_OK(list) && __CPROVER_old(Group_list[g_slot]) != NULL) ==>
                      (__CPROVER_return_value == (int)g_put_ret && g_put_calls == 1 && g_put_data == g_buf &&
                       g_put_len == 4 * g_old_cur && g_put_tag == tag && g_put_ref == ref &&
                       Group_list[g_slot] == NULL && __CPROVER_was_freed(g_rec) && __CPROVER_was_freed(g_buf)))
    __CPROVER_ensures(g_k != g_slot ==> Group_list[g_k] == __CPROVER_old(Group_list[g_k]));

/* ---- DFdifree: any int32 id ---- */
void DFdifree(int32 groupID)
    __CPROVER_requires(ENV_REQ(groupID) && DI_WF(g_rec))
    __CPROVER_assigns(Group_list[g_slot])
    __CPROVER_frees(g_rec, g_buf)
    __CPROVER_ensures((!GID_OK(groupID) || __CPROVER_old(Group_list[g_slot]) == NULL) ==>
                      (Group_list[g_slot] == __CPROVER_old(Group_list[g_slot]) && g_rec->current == g_old_cur &&
                       g_rec->num == g_old_num && g_rec->DIlist == g_buf))
    __CPROVER_ensures((GID_OK(groupID) && __CPROVER_old(Group_list[g_slot]) != NULL) ==>
                      (Group_list[g_slot] == NULL && __CPROVER_was_freed(g_rec) && __CPROVER_was_freed(g_buf)))
    __CPROVER_ensures(g_k != g_slot ==> Group_list[g_k] == __CPROVER_old(Group_list[g_k]));

#ifdef H4V_NATIVE
#include "h4v_native_wrap.h"
#endif

/* ---------------- harnesses ---------------- */
H4V_DECL_ND(int32);
H4V_DECL_ND(int);
H4V_DECL_ND(uint16);
H4V_DECL_ND(uint8);

static DIlist g_other; /* what the slots that are not addressed may hold */

/* every slot: NULL or some record; the addressed slot g_slot: NULL or g_rec (a list of `num` pairs, `cur` in use) */
static void
mk_env(int32 id)
{
    H4V_HAVOC(int, g_slot);
    H4V_HAVOC(int, g_k);
    H4V_HAVOC(int32, g_o);
    H4V_HAVOC(int, g_validfid);
    H4V_HAVOC(int32, g_hlen);
    H4V_HAVOC(int32, g_get_ret);
    H4V_HAVOC(int32, g_put_ret);
    g_put_calls = 0;
    g_get_calls = 0;
    g_alloc_failed = 0;
    g_put_data  = NULL;
    g_put_len   = -7;
    g_put_tag = g_put_ref = 0;
    H4V_ASSUME(g_slot >= 0 && g_slot < MAX_GROUPS && g_k >= 0 && g_k < MAX_GROUPS);
    H4V_ASSUME(!GID_OK(id) || g_slot == GID_SLOT(id));
    H4V_ND(int, occ_mask);
    for (int s = 0; s < MAX_GROUPS; s++)
        Group_list[s] = ((occ_mask >> s) & 1) ? &g_other : NULL;
    g_other.DIlist  = NULL;
    g_other.num     = 0;
    g_other.current = 0;
    H4V_ND(int, di_num);
    H4V_ND(int, di_cur);
    H4V_ASSUME(di_num >= 0 && di_num <= DI_MAXNUM && di_cur >= 0 && di_cur <= di_num);
#ifdef DI_CAP
    H4V_ASSUME(di_num <= DI_CAP);
#endif
    g_rec = malloc(sizeof(DIlist));
    H4V_ASSUME(g_rec != NULL);
    H4V_ND_BUF(uint8, di_buf, 4 * di_num, 32);
    g_buf          = di_buf;
    g_rec->DIlist  = g_buf;
    g_rec->num     = di_num;
    g_rec->current = di_cur;
    g_old_cur      = di_cur;
    g_old_num      = di_num;
    if (Group_list[g_slot] != NULL)
        Group_list[g_slot] = g_rec;
    g_old_o = (g_o >= 0 && g_o < 4 * di_num) ? g_buf[g_o] : 0;
    g_exp_tag = g_exp_ref = 0;
    if (di_cur < di_num) {
        g_exp_tag = (uint16)((g_buf[4 * di_cur] << 8) | g_buf[4 * di_cur + 1]);
        g_exp_ref = (uint16)((g_buf[4 * di_cur + 2] << 8) | g_buf[4 * di_cur + 3]);
    }
}

void
h_setgroupREC(void)
{
    mk_env(0);
    DIlist_ptr nr = malloc(sizeof(DIlist));
    H4V_ASSUME(nr != NULL);
    int32 r = setgroupREC(nr);
    H4V_COVER(r == FAIL, "table full");
    H4V_COVER(r != FAIL && GID_SLOT(r) == MAX_GROUPS - 1, "last slot handed out");
    H4V_COVER(r != FAIL && GID_SLOT(r) == 0, "first slot handed out");
    H4V_CANARY("setgroupREC end");
}

void
h_DFdiget(void)
{
    H4V_ND(int32, list);
    mk_env(list);
    uint16 t = 0xAAAA, f = 0xBBBB;
    int    was_last = (g_old_cur + 1 == g_old_num);
    int    r        = DFdiget(list, &t, &f);
    if (r == SUCCEED && !was_last)
        H4V_CHECK(g_rec->num == g_old_num && g_rec->DIlist[0] == g_rec->DIlist[0], "list still alive before the last pair");
    H4V_COVER(r == SUCCEED && was_last, "last pair: slot released");
    H4V_COVER(r == SUCCEED && !was_last, "a pair in the middle");
    H4V_COVER(r == FAIL && GID_OK(list) && Group_list[g_slot] != NULL, "past the end");
    H4V_COVER(r == FAIL && !GID_OK(list), "bad id");
    H4V_COVER(r == FAIL && ((uint32)list >> 16) == GROUPTYPE && ((uint32)list & 0xffff) >= MAX_GROUPS, "slot out of range");
    H4V_CANARY("DFdiget end");
}

void
h_DFdinobj(void)
{
    H4V_ND(int32, list);
    mk_env(list);
    int r = DFdinobj(list);
    H4V_COVER(r > 0, "count");
    H4V_COVER(r == FAIL, "bad id");
    H4V_CANARY("DFdinobj end");
}

void
h_DFdiput(void)
{
    H4V_ND(int32, list);
    H4V_ND(uint16, tag);
    H4V_ND(uint16, ref);
    mk_env(list);
    int r = DFdiput(list, tag, ref);
    H4V_COVER(r == SUCCEED && g_rec->current == g_rec->num, "list becomes full");
    H4V_COVER(r == FAIL && GID_HIT(list), "list full: refused");
    H4V_COVER(r == FAIL && !GID_OK(list), "bad id");
    H4V_CANARY("DFdiput end");
}

void
h_DFdisetup(void)
{
    H4V_ND(int, maxsize);
    mk_env(0);
    int32 r = DFdisetup(maxsize);
    H4V_COVER(r == FAIL, "refused");
    H4V_COVER(r != FAIL && maxsize > 10, "created");
    H4V_CANARY("DFdisetup end");
}

/* DFdisetup at capacity N followed by N+1 DFdiput: the last one is refused and nothing is written past the list */
void
h_setup_put_limit(void)
{
    H4V_ND(int, maxsize);
    H4V_ND(uint16, tag);
    H4V_ND(uint16, ref);
    mk_env(0);
    H4V_ASSUME(maxsize >= 0 && maxsize <= 2);
    int32 id = DFdisetup(maxsize);
    if (id != FAIL) {
        int n_ok = 0;
        for (int i = 0; i < 4; i++)
            if (DFdiput(id, tag, ref) == SUCCEED)
                n_ok++;
        H4V_CHECK(n_ok == maxsize, "exactly maxsize pairs are accepted");
        H4V_CHECK(DFdinobj(id) == maxsize, "capacity unchanged");
        H4V_CHECK(Group_list[GID_SLOT(id)]->current == maxsize, "counter stops at the capacity");
        H4V_COVER(n_ok == 2, "two accepted");
    }
    H4V_CANARY("setup_put_limit end");
}

void
h_DFdiread(void)
{
    H4V_ND(int32, file_id);
    H4V_ND(uint16, tag);
    H4V_ND(uint16, ref);
    mk_env(0);
    H4V_ASSUME(g_hlen >= FAIL);
    int32 r = DFdiread(file_id, tag, ref);
    H4V_COVER(r == FAIL && g_get_calls == 1 && g_get_ret >= 0, "table full");
    H4V_COVER(r != FAIL && g_hlen > 100, "read");
    H4V_COVER(r != FAIL && g_hlen == 0, "empty group");
    H4V_CANARY("DFdiread end");
}

void
h_DFdiwrite(void)
{
    H4V_ND(int32, file_id);
    H4V_ND(int32, list);
    H4V_ND(uint16, tag);
    H4V_ND(uint16, ref);
    mk_env(list);
    int r = DFdiwrite(file_id, list, tag, ref);
    H4V_COVER(g_put_calls == 1 && g_put_len > 0, "written");
    H4V_COVER(r == FAIL && g_put_calls == 0 && g_validfid, "bad id");
    H4V_CANARY("DFdiwrite end");
}

void
h_DFdifree(void)
{
    H4V_ND(int32, list);
    mk_env(list);
    int had = GID_HIT(list);
    DFdifree(list);
    H4V_COVER(had, "released");
    H4V_COVER(!had && GID_OK(list), "empty slot");
    H4V_COVER(!GID_OK(list), "bad id");
    H4V_CANARY("DFdifree end");
}
